//! Random pipelines over (key, value) pairs, built on the REAL engine through the public API
//! and executed under a chosen deployment / batch mode; the Coq side holds the same AST
//! (`Model/Pipe.v`) with its sequential meaning.
use std::sync::atomic::{AtomicU64, Ordering};
use std::sync::mpsc;
use std::time::Duration;

use renoir::config::ConfigBuilder;
use renoir::{BatchMode, Replication, RuntimeConfig, StreamContext};

use crate::dynop::{erase, DynStream};
use crate::rng::Rng;

pub type P = (i64, i64);

#[derive(Clone, Debug, PartialEq)]
pub enum Repl { One, Host, Unlimited, Limited(u64) }

#[derive(Clone, Debug, PartialEq)]
pub enum Op1 {
    MapAdd(i64), SetKey(i64), FilterNe(i64), FlatRep(i64), Shuffle, Repl(Repl),
    GroupBySum, GroupByCount, GroupByMax, GroupByMin, GroupByFoldSum, GroupByThenFoldSum, GroupByReduceMax,
    FoldSum, FoldAssocSum, ReduceMax, ReduceAssocMax, AddState,
    /// a replay loop nested inside a loop body
    Nested(i64, i64, Vec<Op1>),
    /// the same, but the ops of the inner body read the ENCLOSING loop's state
    NestedO(i64, i64, Vec<Op1>),
    /// hash-shipped join with a constant side input (a stream defined outside the loop when
    /// used inside a loop body: cached and replayed every round)
    JoinSide(JVar, JLocal, Vec<P>),
    /// the same with the side input as the LEFT operand of the join
    JoinSideL(JVar, JLocal, Vec<P>),
    /// identity, but the user function panics on the first element whose value is congruent to this modulo 7 (C20)
    PanicAt(i64),
}

#[derive(Clone, Copy, Debug, PartialEq)]
pub enum JVar { Inner, Left, Outer }
#[derive(Clone, Copy, Debug, PartialEq)]
pub enum JShip { Hash, Broadcast }
#[derive(Clone, Copy, Debug, PartialEq)]
pub enum JLocal { Hash, SortMerge }

#[derive(Clone, Debug)]
pub enum Pipe {
    Src(bool, Vec<P>),
    Op(Box<Pipe>, Op1),
    Join(Box<Pipe>, Box<Pipe>, JVar, JShip, JLocal),
    Merge(Box<Pipe>, Box<Pipe>),
    Split(Box<Pipe>, Vec<Op1>, Vec<Op1>, Option<JVar>),
    Replay(Box<Pipe>, i64, i64, Vec<Op1>),
    Iterate(Box<Pipe>, i64, i64, Vec<Op1>, bool),
}

// ------------------------------------------------------------------ printing as Coq terms
fn z(x: i64) -> String { if x < 0 { format!("({})", x) } else { format!("{}", x) } }
impl Repl {
    fn coq(&self) -> String {
        match self { Repl::One => "RpOne".into(), Repl::Host => "RpHost".into(), Repl::Unlimited => "RpUnlimited".into(), Repl::Limited(n) => format!("(RpLimited {})", n) }
    }
}
impl Op1 {
    pub fn coq(&self) -> String {
        match self {
            Op1::MapAdd(c) => format!("(OMapAdd {})", z(*c)),
            Op1::SetKey(m) => format!("(OSetKey {})", z(*m)),
            Op1::FilterNe(m) => format!("(OFilterNe {})", z(*m)),
            Op1::FlatRep(n) => format!("(OFlatRep {})", z(*n)),
            Op1::Shuffle => "OShuffle".into(),
            Op1::Repl(r) => format!("(ORepl {})", r.coq()),
            Op1::GroupBySum => "OGroupBySum".into(), Op1::GroupByCount => "OGroupByCount".into(),
            Op1::GroupByMax => "OGroupByMax".into(), Op1::GroupByMin => "OGroupByMin".into(),
            Op1::GroupByFoldSum => "OGroupByFoldSum".into(), Op1::GroupByThenFoldSum => "OGroupByThenFoldSum".into(),
            Op1::GroupByReduceMax => "OGroupByReduceMax".into(),
            Op1::FoldSum => "OFoldSum".into(), Op1::FoldAssocSum => "OFoldAssocSum".into(),
            Op1::ReduceMax => "OReduceMax".into(), Op1::ReduceAssocMax => "OReduceAssocMax".into(),
            Op1::AddState => "OAddState".into(),
            Op1::Nested(n, lim, body) => format!("(ONested {} {} {})", z(*n), z(*lim), ops_coq(body)),
            Op1::NestedO(n, lim, body) => format!("(ONestedO {} {} {})", z(*n), z(*lim), ops_coq(body)),
            Op1::JoinSideL(v, lo, side) => format!("(OJoinSideL {} {} {})", jv(*v), match lo { JLocal::Hash => "LoHash", JLocal::SortMerge => "LoSortMerge" }, data_coq(side)),
            Op1::JoinSide(v, lo, side) => format!("(OJoinSide {} {} {})", jv(*v), match lo { JLocal::Hash => "LoHash", JLocal::SortMerge => "LoSortMerge" }, data_coq(side)),
            Op1::PanicAt(_) => "(OMapAdd 0)".into(),
        }
    }
}
fn ops_coq(os: &[Op1]) -> String { format!("[{}]", os.iter().map(|o| o.coq()).collect::<Vec<_>>().join("; ")) }
fn data_coq(xs: &[P]) -> String { format!("[{}]", xs.iter().map(|(k, v)| format!("({}, {})", z(*k), z(*v))).collect::<Vec<_>>().join("; ")) }
fn jv(v: JVar) -> &'static str { match v { JVar::Inner => "JvInner", JVar::Left => "JvLeft", JVar::Outer => "JvOuter" } }
impl Pipe {
    pub fn coq(&self) -> String {
        match self {
            Pipe::Src(par, xs) => format!("(PSrc {} {})", par, data_coq(xs)),
            Pipe::Op(p, o) => format!("(POp {} {})", p.coq(), o.coq()),
            Pipe::Join(l, r, v, sh, lo) => format!("(PJoin {} {} {} {} {})", l.coq(), r.coq(), jv(*v),
                match sh { JShip::Hash => "ShHash", JShip::Broadcast => "ShBroadcast" }, match lo { JLocal::Hash => "LoHash", JLocal::SortMerge => "LoSortMerge" }),
            Pipe::Merge(l, r) => format!("(PMerge {} {})", l.coq(), r.coq()),
            Pipe::Split(p, a, b, v) => format!("(PSplit {} {} {} {})", p.coq(), ops_coq(a), ops_coq(b), match v { None => "None".to_string(), Some(v) => format!("(Some {})", jv(*v)) }),
            Pipe::Replay(p, n, lim, body) => format!("(PReplay {} {} {} {})", p.coq(), z(*n), z(*lim), ops_coq(body)),
            Pipe::Iterate(p, n, lim, body, st) => format!("(PIterate {} {} {} {} {})", p.coq(), z(*n), z(*lim), ops_coq(body), st),
        }
    }
    pub fn input_len(&self) -> usize {
        match self {
            Pipe::Src(_, xs) => xs.len(),
            Pipe::Op(p, _) | Pipe::Split(p, _, _, _) | Pipe::Replay(p, _, _, _) | Pipe::Iterate(p, _, _, _, _) => p.input_len(),
            Pipe::Join(l, r, _, _, _) | Pipe::Merge(l, r) => l.input_len() + r.input_len(),
        }
    }
    pub fn has_loop(&self) -> bool {
        match self {
            Pipe::Src(_, _) => false,
            Pipe::Replay(_, _, _, _) | Pipe::Iterate(_, _, _, _, _) => true,
            Pipe::Op(p, _) | Pipe::Split(p, _, _, _) => p.has_loop(),
            Pipe::Join(l, r, _, _, _) | Pipe::Merge(l, r) => l.has_loop() || r.has_loop(),
        }
    }
}

// ------------------------------------------------------------------ building on the real engine
fn pmax(a: P, b: P) -> P { (a.0.max(b.0), a.1.max(b.1)) }
fn jmix(l: Option<i64>, r: Option<i64>) -> i64 {
    let e = |o: Option<i64>| o.map(|z| z + 1).unwrap_or(0);
    (e(l) * 1009 + e(r)).rem_euclid(1_000_003)
}

#[derive(Clone)]
enum StateGet {
    Zero,
    Handle(renoir::IterationStateHandle<i64>),
}
impl StateGet {
    fn get(&self) -> i64 {
        match self {
            StateGet::Zero => 0,
            StateGet::Handle(h) => *h.get(),
        }
    }
}

/// Side inputs of the `JoinSide` ops of an op list, built (outside any loop body) in the
/// depth-first order in which `apply` meets them.
type Sides = std::sync::Arc<std::sync::Mutex<std::collections::VecDeque<DynStream<P>>>>;
fn collect_sides(env: &StreamContext, mode: BatchMode, os: &[Op1], out: &mut std::collections::VecDeque<DynStream<P>>) {
    for o in os {
        match o {
            Op1::JoinSide(_, _, side) | Op1::JoinSideL(_, _, side) => {
                let data = side.clone();
                out.push_back(erase(env.stream_par_iter(move |id, n| data.into_iter().skip(id as usize).step_by(n as usize)).batch_mode(mode)));
            }
            Op1::Nested(_, _, b) | Op1::NestedO(_, _, b) => collect_sides(env, mode, b, out),
            _ => {}
        }
    }
}
fn prebuild_sides(env: &StreamContext, mode: BatchMode, os: &[Op1]) -> Sides {
    let mut q = std::collections::VecDeque::new();
    collect_sides(env, mode, os, &mut q);
    std::sync::Arc::new(std::sync::Mutex::new(q))
}

fn apply1(sides: &Sides, s: DynStream<P>, o: &Op1, state: &StateGet) -> DynStream<P> {
    match o {
        Op1::MapAdd(c) => { let c = *c; erase(s.map(move |x: P| (x.0, x.1 + c))) }
        Op1::SetKey(m) => { let m = *m; erase(s.map(move |x: P| (x.1.rem_euclid(m), x.1))) }
        Op1::FilterNe(m) => { let m = *m; erase(s.filter(move |x: &P| x.1.rem_euclid(m) != 0)) }
        Op1::FlatRep(n) => { let n = *n; erase(s.flat_map(move |x: P| (0..n).map(move |i| (x.0, x.1 * 8 + i)).collect::<Vec<P>>())) }
        Op1::Shuffle => erase(s.shuffle()),
        Op1::Repl(r) => erase(s.replication(match r { Repl::One => Replication::One, Repl::Host => Replication::Host, Repl::Unlimited => Replication::Unlimited, Repl::Limited(n) => Replication::new_limited(*n) })),
        Op1::GroupBySum => erase(s.group_by_sum(|x: &P| x.0, |x: P| x.1).unkey()),
        Op1::GroupByCount => erase(s.group_by_count(|x: &P| x.0).unkey().map(|(k, c): (i64, usize)| (k, c as i64))),
        Op1::GroupByMax => erase(s.group_by_max_element(|x: &P| x.0, |x: &P| x.1).unkey().map(|(k, x): (i64, P)| (k, x.1))),
        Op1::GroupByMin => erase(s.group_by_min_element(|x: &P| x.0, |x: &P| x.1).unkey().map(|(k, x): (i64, P)| (k, x.1))),
        Op1::GroupByFoldSum => erase(s.group_by_fold(|x: &P| x.0, 0i64, |a: &mut i64, x: P| *a += x.1, |a: &mut i64, b: i64| *a += b).unkey()),
        Op1::GroupByThenFoldSum => erase(s.group_by(|x: &P| x.0).fold(0i64, |a: &mut i64, x: P| *a += x.1).unkey()),
        Op1::GroupByReduceMax => erase(s.group_by_reduce(|x: &P| x.0, |a: &mut P, b: P| { if b.1 > a.1 { *a = b; } }).unkey().map(|(k, x): (i64, P)| (k, x.1))),
        Op1::FoldSum => erase(s.fold(0i64, |a: &mut i64, x: P| *a += x.1).map(|v: i64| (0, v))),
        Op1::FoldAssocSum => erase(s.fold_assoc(0i64, |a: &mut i64, x: P| *a += x.1, |a: &mut i64, b: i64| *a += b).map(|v: i64| (0, v))),
        Op1::ReduceMax => erase(s.reduce(pmax)),
        Op1::ReduceAssocMax => erase(s.reduce_assoc(pmax)),
        Op1::AddState => { let st = state.clone(); erase(s.map(move |x: P| (x.0, x.1 + st.get()))) }
        Op1::PanicAt(v) => { let v = *v; let tag = RUN_TAG.with(|t| t.get()); erase(s.map(move |x: P| { if x.1.rem_euclid(7) == v { FIRED_TAGS.lock().unwrap().insert(tag); panic!("injected user-function panic"); } x })) }
        Op1::Nested(n, limit, body) => {
            let (body, limit, sd) = (body.clone(), *limit, sides.clone());
            let st = erase(s.shuffle()).replay(
                *n as usize,
                0i64,
                move |s, inner| { let get = StateGet::Handle(inner); apply(&sd, erase(s), &body, &get) },
                |d: &mut i64, x: P| *d += x.1,
                |s: &mut i64, d: i64| *s += d,
                move |s: &mut i64| *s < limit,
            );
            erase(st.map(|v: i64| (0, v)))
        }
        Op1::JoinSide(v, lo, _) => {
            let side = sides.lock().unwrap().pop_front().expect("side input prebuilt");
            join(s, side, *v, JShip::Hash, *lo)
        }
        Op1::JoinSideL(v, lo, _) => {
            let side = sides.lock().unwrap().pop_front().expect("side input prebuilt");
            join(side, s, *v, JShip::Hash, *lo)
        }
        Op1::NestedO(n, limit, body) => {
            let (body, limit, outer, sd) = (body.clone(), *limit, state.clone(), sides.clone());
            let st = erase(s.shuffle()).replay(
                *n as usize,
                0i64,
                move |s, _inner| apply(&sd, erase(s), &body, &outer),
                |d: &mut i64, x: P| *d += x.1,
                |s: &mut i64, d: i64| *s += d,
                move |s: &mut i64| *s < limit,
            );
            erase(st.map(|v: i64| (0, v)))
        }
    }
}
fn apply(sides: &Sides, mut s: DynStream<P>, os: &[Op1], state: &StateGet) -> DynStream<P> {
    for o in os { s = apply1(sides, s, o, state); }
    s
}

fn join(l: DynStream<P>, r: DynStream<P>, v: JVar, sh: JShip, lo: JLocal) -> DynStream<P> {
    let kl = |x: &P| x.0;
    let kr = |y: &P| y.0;
    let inner = |(k, (a, b)): (i64, (P, P))| (k, jmix(Some(a.1), Some(b.1)));
    let left = |(k, (a, b)): (i64, (P, Option<P>))| (k, jmix(Some(a.1), b.map(|b| b.1)));
    let outer = |(k, (a, b)): (i64, (Option<P>, Option<P>))| (k, jmix(a.map(|a| a.1), b.map(|b| b.1)));
    let jw = l.join_with(r, kl, kr);
    match (sh, lo, v) {
        (JShip::Hash, JLocal::Hash, JVar::Inner) => erase(jw.ship_hash().local_hash().inner().unkey().map(inner)),
        (JShip::Hash, JLocal::Hash, JVar::Left) => erase(jw.ship_hash().local_hash().left().unkey().map(left)),
        (JShip::Hash, JLocal::Hash, JVar::Outer) => erase(jw.ship_hash().local_hash().outer().unkey().map(outer)),
        (JShip::Hash, JLocal::SortMerge, JVar::Inner) => erase(jw.ship_hash().local_sort_merge().inner().unkey().map(inner)),
        (JShip::Hash, JLocal::SortMerge, JVar::Left) => erase(jw.ship_hash().local_sort_merge().left().unkey().map(left)),
        (JShip::Hash, JLocal::SortMerge, JVar::Outer) => erase(jw.ship_hash().local_sort_merge().outer().unkey().map(outer)),
        (JShip::Broadcast, JLocal::Hash, JVar::Inner) => erase(jw.ship_broadcast_right().local_hash().inner().map(inner)),
        (JShip::Broadcast, JLocal::Hash, JVar::Left) => erase(jw.ship_broadcast_right().local_hash().left().map(left)),
        (JShip::Broadcast, JLocal::SortMerge, JVar::Inner) => erase(jw.ship_broadcast_right().local_sort_merge().inner().map(inner)),
        (JShip::Broadcast, JLocal::SortMerge, JVar::Left) => erase(jw.ship_broadcast_right().local_sort_merge().left().map(left)),
        // outer join cannot be shipped by broadcast: fall back to hash shipping
        (JShip::Broadcast, JLocal::Hash, JVar::Outer) => erase(jw.ship_hash().local_hash().outer().unkey().map(outer)),
        (JShip::Broadcast, JLocal::SortMerge, JVar::Outer) => erase(jw.ship_hash().local_sort_merge().outer().unkey().map(outer)),
    }
}

pub fn build(env: &StreamContext, p: &Pipe, mode: BatchMode) -> DynStream<P> {
    let zero = StateGet::Zero;
    match p {
        Pipe::Src(par, xs) => {
            let data = xs.clone();
            if *par {
                erase(env.stream_par_iter(move |id, n| data.into_iter().skip(id as usize).step_by(n as usize)).batch_mode(mode))
            } else {
                erase(env.stream_iter(data.into_iter()).batch_mode(mode))
            }
        }
        Pipe::Op(p, o) => { let input = build(env, p, mode); apply1(&prebuild_sides(env, mode, std::slice::from_ref(o)), input, o, &zero) }
        Pipe::Join(l, r, v, sh, lo) => join(build(env, l, mode), build(env, r, mode), *v, *sh, *lo),
        Pipe::Merge(l, r) => erase(build(env, l, mode).merge(build(env, r, mode))),
        Pipe::Split(p, a, b, v) => {
            let mut branches = build(env, p, mode).split(2);
            let sb = apply(&prebuild_sides(env, mode, b), erase(branches.pop().unwrap()), b, &zero);
            let sa = apply(&prebuild_sides(env, mode, a), erase(branches.pop().unwrap()), a, &zero);
            match v {
                None => erase(sa.merge(sb)),
                Some(v) => join(sa, sb, *v, JShip::Hash, JLocal::Hash),
            }
        }
        Pipe::Replay(p, n, limit, body) => {
            let (body, limit) = (body.clone(), *limit);
            let input = build(env, p, mode);
            let sd = prebuild_sides(env, mode, &body);
            let st = erase(input.shuffle()).replay(
                *n as usize,
                0i64,
                move |s, state| { let get = StateGet::Handle(state); apply(&sd, erase(s), &body, &get) },
                |d: &mut i64, x: P| *d += x.1,
                |s: &mut i64, d: i64| *s += d,
                move |s: &mut i64| *s < limit,
            );
            erase(st.map(|v: i64| (0, v)))
        }
        Pipe::Iterate(p, n, limit, body, take_state) => {
            let (body, limit) = (body.clone(), *limit);
            let input = build(env, p, mode);
            let sd = prebuild_sides(env, mode, &body);
            let (state, out) = erase(input.shuffle()).iterate(
                *n as usize,
                0i64,
                move |s, state| { let get = StateGet::Handle(state); erase(apply(&sd, erase(s), &body, &get).shuffle()) },
                |d: &mut i64, x: P| *d += x.1,
                |s: &mut i64, d: i64| *s += d,
                move |s: &mut i64| *s < limit,
            );
            if *take_state {
                out.for_each(|_| {});
                erase(state.map(|v: i64| (0, v)))
            } else {
                state.for_each(|_| {});
                erase(out)
            }
        }
    }
}

// ------------------------------------------------------------------ deployments and running
#[derive(Clone, Debug)]
pub enum Deploy { Local(u64), Remote(Vec<u64>) }
impl Deploy {
    pub fn describe(&self) -> String { match self { Deploy::Local(p) => format!("local({p})"), Deploy::Remote(c) => format!("hosts with cores {:?}", c) } }
    pub fn total(&self) -> u64 { match self { Deploy::Local(p) => *p, Deploy::Remote(c) => c.iter().sum() } }
}
#[derive(Clone, Copy, Debug)]
pub enum Mode { Single, Fixed(usize), Adaptive(usize, u64) }
impl Mode {
    pub fn batch(&self) -> BatchMode { match self { Mode::Single => BatchMode::single(), Mode::Fixed(n) => BatchMode::fixed(*n), Mode::Adaptive(n, ms) => BatchMode::adaptive(*n, Duration::from_millis(*ms)) } }
}

static RUN_ID: AtomicU64 = AtomicU64::new(1);
// which runs had their injected panic fire (workers of an earlier run may still be unwinding
// while the next run starts, so the flag is per run, captured when the job is built)
pub static FIRED_TAGS: std::sync::Mutex<std::collections::BTreeSet<u64>> = std::sync::Mutex::new(std::collections::BTreeSet::new());
thread_local! {
    pub static RUN_TAG: std::cell::Cell<u64> = const { std::cell::Cell::new(0) };
}

pub fn remote_config_pub(cores: &[u64], host_id: u64, run: u64) -> RuntimeConfig { remote_config(cores, host_id, run) }
fn remote_config(cores: &[u64], host_id: u64, run: u64) -> RuntimeConfig {
    let mut toml = String::new();
    for (i, c) in cores.iter().enumerate() {
        toml.push_str(&format!("[[host]]\naddress = \"127.{}.{}.{}\"\nbase_port = 22000\nnum_cores = {}\n\n", 80 + (run >> 8) % 100, run & 255, i + 1, c));
    }
    let mut b = ConfigBuilder::new_remote();
    b.parse_toml_str(&toml).unwrap();
    b.host_id(host_id);
    b.build().unwrap()
}

#[derive(Debug)]
pub enum Outcome { Done(Vec<P>), Hang, Panicked(String), Rejected(String) }

/// Run the job to completion under the deployment; the result is what the (single) sink
/// published. A watchdog turns a job that does not finish into `Hang`.
pub fn run(pipe: &Pipe, deploy: &Deploy, mode: Mode, watchdog: Duration) -> Outcome {
    let run = RUN_ID.fetch_add(1, Ordering::SeqCst) + (std::process::id() as u64 % 97) * 131;
    let hosts = match deploy { Deploy::Local(_) => 1, Deploy::Remote(c) => c.len() as u64 };
    let (tx, rx) = mpsc::channel::<(u64, Result<Option<Vec<P>>, String>)>();
    for h in 0..hosts {
        let (pipe, deploy, tx) = (pipe.clone(), deploy.clone(), tx.clone());
        std::thread::spawn(move || {
            let cfg = match &deploy { Deploy::Local(p) => RuntimeConfig::local(*p).unwrap(), Deploy::Remote(c) => remote_config(c, h, run) };
            // the public API may reject a plan while it is being built (e.g. merging streams of
            // different parallelism): that is not a run
            let built = crate::script::catch(move || {
                let env = StreamContext::new(cfg);
                let out = build(&env, &pipe, mode.batch()).collect_vec();
                (env, out)
            });
            let r = match built {
                Err(m) => Err(format!("REJECTED {m}")),
                Ok((env, out)) => crate::script::catch(move || {
                    env.execute_blocking();
                    out.get()
                }),
            };
            let _ = tx.send((h, r));
        });
    }
    drop(tx);
    let mut result: Option<Vec<P>> = None;
    let mut published = 0;
    for _ in 0..hosts {
        match rx.recv_timeout(watchdog) {
            Ok((_, Ok(Some(v)))) => { published += 1; result = Some(v); }
            Ok((_, Ok(None))) => {}
            Ok((_, Err(m))) if m.starts_with("REJECTED") => return Outcome::Rejected(m),
            Ok((h, Err(m))) => return Outcome::Panicked(format!("host {h}: {m}")),
            Err(_) => return Outcome::Hang,
        }
    }
    match (published, result) {
        (1, Some(v)) => Outcome::Done(v),
        (n, _) => Outcome::Panicked(format!("{n} hosts published a result (expected exactly 1)")),
    }
}

// ------------------------------------------------------------------ generation
fn data(rng: &mut Rng) -> Vec<P> {
    let n = match rng.below(6) { 0 => 0, 1 => rng.below(4), 2 => rng.range(200, 600) as u64, _ => rng.below(60) };
    let nkeys = *rng.pick(&[1i64, 2, 3, 7, 50]);
    (0..n).map(|i| (if rng.chance(1, 3) { 0 } else { rng.range(0, nkeys - 1) }, (i as i64 % 90) + rng.range(0, 9))).collect()
}
fn plain_op(rng: &mut Rng, in_loop: bool) -> Op1 {
    match rng.below(if in_loop { 9 } else { 19 }) {
        0 => Op1::MapAdd(rng.range(-3, 5)),
        1 => Op1::SetKey(rng.range(1, 6)),
        2 => Op1::FilterNe(rng.range(2, 5)),
        3 => Op1::FlatRep(rng.range(0, 2)),
        4 => Op1::Shuffle,
        5 => Op1::GroupBySum,
        6 => Op1::GroupByMax,
        7 => if in_loop { Op1::AddState } else { Op1::GroupByCount },
        8 => Op1::GroupByFoldSum,
        9 => Op1::GroupByMin,
        10 => Op1::GroupByThenFoldSum,
        11 => Op1::GroupByReduceMax,
        12 => Op1::FoldSum,
        13 => Op1::FoldAssocSum,
        14 => Op1::ReduceMax,
        15 => Op1::ReduceAssocMax,
        16 => Op1::Repl(Repl::One),
        17 => Op1::Repl(Repl::Limited(rng.range(1, 5) as u64)),
        _ => Op1::Repl(if rng.chance(1, 2) { Repl::Host } else { Repl::Unlimited }),
    }
}
fn ops(rng: &mut Rng, max: u64, in_loop: bool) -> Vec<Op1> { (0..rng.below(max + 1)).map(|_| plain_op(rng, in_loop)).collect() }

/// a loop body: plain ops, sometimes with a nested replay loop in the middle
pub fn loop_body(rng: &mut Rng, max: u64, allow_nested: bool) -> Vec<Op1> {
    let mut b = ops(rng, max, true);
    if allow_nested && rng.chance(1, 4) {
        let mut inner = ops(rng, 2, true);
        // half of the nested bodies read the loop state they see (so that a state left over from
        // the previous outer round, or a stale one, changes the result)
        if rng.chance(1, 2) { let at = rng.below(inner.len() as u64 + 1) as usize; inner.insert(at, Op1::AddState); }
        let pos = rng.below(b.len() as u64 + 1) as usize;
        let (n, lim) = (rng.range(1, 3), *rng.pick(&[40i64, 1_000_000_000]));
        // one nested loop in four reads the ENCLOSING loop's state in its body
        b.insert(pos, if rng.chance(1, 4) { Op1::NestedO(n, lim, inner) } else { Op1::Nested(n, lim, inner) });
    }
    // a join with a side input defined outside the loop (cached and replayed every round);
    // distinct keys on the side, so that the join does not multiply the stream
    if rng.chance(1, 4) {
        let pos = rng.below(b.len() as u64 + 1) as usize;
        b.insert(pos, random_join_side(rng));
    }
    b
}

pub fn random_join_side(rng: &mut Rng) -> Op1 {
    let mut side: Vec<P> = vec![];
    for k in 0..9 { if rng.chance(1, 2) { side.push((k, rng.range(0, 40))); } }
    let (v, lo) = (*rng.pick(&[JVar::Inner, JVar::Left, JVar::Outer, JVar::Outer]), *rng.pick(&[JLocal::Hash, JLocal::SortMerge, JLocal::SortMerge]));
    // one in three has the side input as the LEFT operand
    if rng.chance(1, 3) { Op1::JoinSideL(v, lo, side) } else { Op1::JoinSide(v, lo, side) }
}

fn chain(rng: &mut Rng, mut p: Pipe, max: u64) -> Pipe {
    for o in ops(rng, max, false) { p = Pipe::Op(Box::new(p), o); }
    p
}

pub fn random_pipe(rng: &mut Rng, depth: u32) -> Pipe {
    let src = |rng: &mut Rng| Pipe::Src(rng.chance(3, 4), data(rng));
    let base = src(rng);
    let p = chain(rng, base, 3);
    let p = match if depth == 0 { 0 } else { rng.below(9) } {
        1 => { let r = random_pipe(rng, depth - 1); Pipe::Join(Box::new(p), Box::new(r), *rng.pick(&[JVar::Inner, JVar::Left, JVar::Outer]), *rng.pick(&[JShip::Hash, JShip::Hash, JShip::Broadcast]), *rng.pick(&[JLocal::Hash, JLocal::SortMerge])) }
        2 => { let r = random_pipe(rng, depth - 1); Pipe::Merge(Box::new(p), Box::new(r)) }
        3 => Pipe::Split(Box::new(p), ops(rng, 2, false), ops(rng, 2, false), None),
        4 => Pipe::Split(Box::new(p), ops(rng, 2, false), ops(rng, 2, false), Some(*rng.pick(&[JVar::Inner, JVar::Left, JVar::Outer]))),
        5 | 6 => Pipe::Replay(Box::new(p), rng.range(0, 4), *rng.pick(&[50i64, 2000, 1_000_000_000]), loop_body(rng, 3, true)),
        7 => Pipe::Iterate(Box::new(p), rng.range(0, 4), *rng.pick(&[50i64, 2000, 1_000_000_000]), ops(rng, 2, true), rng.chance(1, 2)),
        _ => p,
    };
    chain(rng, p, 2)
}

pub fn random_deploy(rng: &mut Rng) -> Deploy {
    match rng.below(5) {
        0 | 1 | 2 => Deploy::Local(rng.range(1, 8) as u64),
        _ => Deploy::Remote((0..rng.range(2, 3)).map(|_| *rng.pick(&[1u64, 1, 2, 3, 4])).collect()),
    }
}
pub fn random_mode(rng: &mut Rng) -> Mode {
    match rng.below(6) { 0 => Mode::Single, 1 => Mode::Fixed(1), 2 => Mode::Fixed(3), 3 => Mode::Fixed(1024), 4 => Mode::Adaptive(1024, 50), _ => Mode::Adaptive(4, 5) }
}

/// What each host observed in a run with an injected panic.
#[derive(Debug, Clone)]
pub struct HostObs { pub host: u64, pub failed: bool, pub published: bool }
#[derive(Debug)]
pub enum CrashOutcome { Finished { fired: bool, hosts: Vec<HostObs>, result: Option<Vec<P>> }, Hang, Rejected }

/// Like [`run`], but keeps per-host observations: did `execute_blocking` fail, did the sink
/// handle hold a result afterwards.
pub fn run_crash(pipe: &Pipe, deploy: &Deploy, mode: Mode, watchdog: Duration) -> CrashOutcome {
    let run = RUN_ID.fetch_add(1, Ordering::SeqCst) + (std::process::id() as u64 % 97) * 131;
    let hosts = match deploy { Deploy::Local(_) => 1, Deploy::Remote(c) => c.len() as u64 };
    let (tx, rx) = mpsc::channel::<(u64, Result<(bool, Option<Vec<P>>), String>)>();
    for h in 0..hosts {
        let (pipe, deploy, tx) = (pipe.clone(), deploy.clone(), tx.clone());
        std::thread::spawn(move || {
            let cfg = match &deploy { Deploy::Local(p) => RuntimeConfig::local(*p).unwrap(), Deploy::Remote(c) => remote_config(c, h, run) };
            RUN_TAG.with(|t| t.set(run));
            let built = crate::script::catch(move || {
                let env = StreamContext::new(cfg);
                let out = build(&env, &pipe, mode.batch()).collect_vec();
                (env, out)
            });
            let r = match built {
                Err(m) => Err(m),
                Ok((env, out)) => {
                    let failed = crate::script::catch(move || env.execute_blocking()).is_err();
                    Ok((failed, out.get()))
                }
            };
            let _ = tx.send((h, r));
        });
    }
    drop(tx);
    let mut obs = vec![];
    let mut result = None;
    for _ in 0..hosts {
        match rx.recv_timeout(watchdog) {
            Ok((h, Ok((failed, res)))) => { obs.push(HostObs { host: h, failed, published: res.is_some() }); if res.is_some() { result = res; } }
            Ok((_, Err(_))) => return CrashOutcome::Rejected,
            Err(_) => return CrashOutcome::Hang,
        }
    }
    obs.sort_by_key(|o| o.host);
    // give straggling workers of THIS run a moment to reach the panicking function
    let fired = FIRED_TAGS.lock().unwrap().contains(&run);
    CrashOutcome::Finished { fired, hosts: obs, result }
}

/// acyclic pipelines only (C20), with one `PanicAt` inserted at a random position
pub fn random_acyclic_with_panic(rng: &mut Rng) -> Pipe {
    fn strip_loops(p: Pipe) -> Pipe {
        match p {
            Pipe::Replay(q, _, _, _) | Pipe::Iterate(q, _, _, _, _) => strip_loops(*q),
            Pipe::Op(q, o) => Pipe::Op(Box::new(strip_loops(*q)), o),
            Pipe::Join(l, r, v, s, lo) => Pipe::Join(Box::new(strip_loops(*l)), Box::new(strip_loops(*r)), v, s, lo),
            Pipe::Merge(l, r) => Pipe::Merge(Box::new(strip_loops(*l)), Box::new(strip_loops(*r))),
            Pipe::Split(q, a, b, v) => Pipe::Split(Box::new(strip_loops(*q)), a, b, v),
            s => s,
        }
    }
    let p = strip_loops(random_pipe(rng, 2));
    // the trigger value: one of the source values most of the time, sometimes a value nobody has
    let trigger = if rng.chance(1, 6) { -777 } else { rng.range(0, 6) };
    // insert right after a random prefix of the outermost op chain
    fn insert(p: Pipe, depth: u64, trigger: i64) -> Pipe {
        match p {
            Pipe::Op(q, o) if depth > 0 => Pipe::Op(Box::new(insert(*q, depth - 1, trigger)), o),
            other => Pipe::Op(Box::new(other), Op1::PanicAt(trigger)),
        }
    }
    insert(p, rng.below(4), trigger)
}

//! Writing generated cases as Coq files, sharded, plus the run's metadata for the evidence.
use std::collections::{BTreeMap, HashSet};
use std::fs;
use std::hash::{Hash, Hasher};
use std::path::{Path, PathBuf};

pub struct CaseSink {
    pub prop: String,
    pub corr_module: String,
    dir: PathBuf,
    shard_size: usize,
    cur: Vec<String>,
    shard: usize,
    pub total: usize,
    seen: HashSet<u64>,
    pub distinct_nontrivial: usize,
    pub dist: BTreeMap<String, u64>,
    pub samples: Vec<serde_json::Value>,
    /// human-readable form of each case (for replays), one JSON value per case, by shard
    descr: Vec<serde_json::Value>,
    extra_defs: String,
    /// when set: every pushed term `(Ctor args)` becomes `(Wrapper (Module.Ctor args))`
    pub wrap: Option<(String, String)>,
}

impl CaseSink {
    pub fn new(prop: &str, corr_module: &str, dir: &Path, shard_size: usize) -> Self {
        fs::create_dir_all(dir).unwrap();
        // remove stale shards
        for e in fs::read_dir(dir).unwrap().flatten() {
            let n = e.file_name().to_string_lossy().to_string();
            if n.starts_with("cases_") {
                let _ = fs::remove_file(e.path());
            }
        }
        Self {
            prop: prop.into(),
            corr_module: corr_module.into(),
            dir: dir.into(),
            shard_size,
            cur: vec![],
            shard: 0,
            total: 0,
            seen: HashSet::new(),
            distinct_nontrivial: 0,
            dist: BTreeMap::new(),
            samples: vec![],
            descr: vec![],
            extra_defs: String::new(),
            wrap: None,
        }
    }

    pub fn count(&mut self, key: &str) {
        *self.dist.entry(key.to_string()).or_insert(0) += 1;
    }
    pub fn count_n(&mut self, key: &str, n: u64) {
        *self.dist.entry(key.to_string()).or_insert(0) += n;
    }

    /// Add one case: its Coq term, a JSON description (replay), and whether it is
    /// non-trivial by the property's stated rule.
    pub fn push(&mut self, term: String, descr: serde_json::Value, nontrivial: bool) {
        let term = match &self.wrap {
            Some((w, m)) => format!("({} ({}.{})", w, m, &term[1..]),
            None => term,
        };
        let mut h = std::collections::hash_map::DefaultHasher::new();
        term.hash(&mut h);
        let fresh = self.seen.insert(h.finish());
        if fresh && nontrivial {
            self.distinct_nontrivial += 1;
        }
        if self.samples.len() < 3 || (nontrivial && self.samples.len() < 6 && self.total % 97 == 0) {
            self.samples.push(descr.clone());
        }
        self.cur.push(term);
        self.descr.push(descr);
        self.total += 1;
        if self.cur.len() >= self.shard_size {
            self.flush();
        }
    }

    fn flush(&mut self) {
        if self.cur.is_empty() {
            return;
        }
        let mut s = String::new();
        s.push_str("From Coq Require Import List ZArith Bool.\nImport ListNotations.\n");
        s.push_str(&format!("From Noir Require Import Base.Elem {}.\n", self.corr_module));
        s.push_str("Open Scope Z_scope.\n");
        s.push_str(&self.extra_defs);
        s.push_str("Definition cases := [\n");
        s.push_str(&self.cur.join(";\n"));
        s.push_str("\n].\n");
        s.push_str("Eval vm_compute in (tt, report cases).\n");
        fs::write(self.dir.join(format!("cases_{}.v", self.shard)), s).unwrap();
        fs::write(
            self.dir.join(format!("cases_{}.json", self.shard)),
            serde_json::to_string(&self.descr).unwrap(),
        )
        .unwrap();
        self.cur.clear();
        self.descr.clear();
        self.shard += 1;
    }

    pub fn finish(mut self, rule: &str, extra: serde_json::Value) {
        self.flush();
        let meta = serde_json::json!({
            "property": self.prop,
            "shards": self.shard,
            "evaluations": self.total,
            "distinct_nontrivial": self.distinct_nontrivial,
            "rule": rule,
            "distribution": self.dist,
            "samples": self.samples,
            "extra": extra,
        });
        fs::write(self.dir.join("meta.json"), serde_json::to_string_pretty(&meta).unwrap()).unwrap();
    }
}

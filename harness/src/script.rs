//! Scripted source and drivers that run *real* operator chains single-threaded.
use std::collections::VecDeque;
use std::fmt::Display;

use renoir::operator::source::Source;
use renoir::operator::{Data, ExchangeData, Operator, StreamElement};
use renoir::structure::{BlockStructure, OperatorStructure};
use renoir::verif::{self, Net};
use renoir::{BatchMode, ExecutionMetadata, Replication, RuntimeConfig, Stream, StreamContext};

/// A source that replays a fixed script of stream elements, then `Terminate` forever.
#[derive(Clone, Debug)]
pub struct Script<T: Data> {
    buf: VecDeque<StreamElement<T>>,
}

impl<T: Data> Script<T> {
    pub fn new(script: Vec<StreamElement<T>>) -> Self {
        Self { buf: script.into() }
    }
}

impl<T: Data> Display for Script<T> {
    fn fmt(&self, f: &mut std::fmt::Formatter<'_>) -> std::fmt::Result {
        write!(f, "Script")
    }
}

impl<T: Data> Operator for Script<T> {
    type Out = T;
    fn setup(&mut self, _metadata: &mut ExecutionMetadata) {}
    fn next(&mut self) -> StreamElement<T> {
        self.buf.pop_front().unwrap_or(StreamElement::Terminate)
    }
    fn structure(&self) -> BlockStructure {
        BlockStructure::default().add_operator(OperatorStructure::new::<T, _>("Script"))
    }
}

impl<T: Data> Source for Script<T> {
    fn replication(&self) -> Replication {
        Replication::One
    }
}

pub const MAX_PULLS: usize = 2_000_000;

/// Pull a set-up chain until (and including) its first `Terminate`.
pub fn pull_all<Op: Operator>(chain: &mut Op) -> Vec<StreamElement<Op::Out>> {
    let mut out = vec![];
    for _ in 0..MAX_PULLS {
        let e = chain.next();
        let end = matches!(e, StreamElement::Terminate);
        out.push(e);
        if end {
            return out;
        }
    }
    panic!("operator chain did not terminate within {MAX_PULLS} pulls");
}

/// Build `Script -> build(..)` inside one block with the public API, take the real operator
/// chain out and run it to completion on the calling thread.
pub fn run_chain<T, Op, F>(script: Vec<StreamElement<T>>, build: F) -> Vec<StreamElement<Op::Out>>
where
    T: Data,
    Op: Operator,
    F: FnOnce(Stream<Script<T>>) -> Stream<Op>,
{
    let env = StreamContext::new(RuntimeConfig::local(1).unwrap());
    let stream = build(env.stream(Script::new(script)));
    let id = verif::block_id(&stream);
    let mut chain = verif::into_chain(stream);
    let mut net = Net::new(id);
    chain.setup(&mut net.metadata(BatchMode::fixed(1024)));
    pull_all(&mut chain)
}

/// Run `f`, turning a panic into `Err(message)`.
pub fn catch<R>(f: impl FnOnce() -> R) -> Result<R, String> {
    std::panic::catch_unwind(std::panic::AssertUnwindSafe(f)).map_err(|e| {
        if let Some(s) = e.downcast_ref::<&str>() {
            s.to_string()
        } else if let Some(s) = e.downcast_ref::<String>() {
            s.clone()
        } else {
            "panic".to_string()
        }
    })
}

#[allow(dead_code)]
pub fn assert_exchange<T: ExchangeData>() {}

/// Like [`Script`], but installs a mock clock reading (milliseconds) before handing out
/// each element, so that the operator downstream reads exactly that time while it
/// processes the element.
#[derive(Clone, Debug)]
pub struct TimedScript<T: Data> {
    buf: VecDeque<(u64, StreamElement<T>)>,
}

impl<T: Data> TimedScript<T> {
    pub fn new(script: Vec<(u64, StreamElement<T>)>) -> Self {
        Self { buf: script.into() }
    }
}

impl<T: Data> Display for TimedScript<T> {
    fn fmt(&self, f: &mut std::fmt::Formatter<'_>) -> std::fmt::Result {
        write!(f, "TimedScript")
    }
}

impl<T: Data> Operator for TimedScript<T> {
    type Out = T;
    fn setup(&mut self, _metadata: &mut ExecutionMetadata) {}
    fn next(&mut self) -> StreamElement<T> {
        match self.buf.pop_front() {
            Some((ms, e)) => {
                verif::set_mock_clock(Some(std::time::Duration::from_millis(ms)));
                e
            }
            None => StreamElement::Terminate,
        }
    }
    fn structure(&self) -> BlockStructure {
        BlockStructure::default().add_operator(OperatorStructure::new::<T, _>("TimedScript"))
    }
}

impl<T: Data> Source for TimedScript<T> {
    fn replication(&self) -> Replication {
        Replication::One
    }
}

pub fn run_timed_chain<T, Op, F>(script: Vec<(u64, StreamElement<T>)>, build: F) -> Vec<StreamElement<Op::Out>>
where
    T: Data,
    Op: Operator,
    F: FnOnce(Stream<TimedScript<T>>) -> Stream<Op>,
{
    let env = StreamContext::new(RuntimeConfig::local(1).unwrap());
    let stream = build(env.stream(TimedScript::new(script)));
    let id = verif::block_id(&stream);
    let mut chain = verif::into_chain(stream);
    let mut net = Net::new(id);
    chain.setup(&mut net.metadata(BatchMode::fixed(1024)));
    let out = pull_all(&mut chain);
    verif::set_mock_clock(None);
    out
}

//! Driving the real `Start` operator: batches are pushed by the calling thread in a chosen
//! order into the (single) input channel while a worker thread pulls `next()` until
//! `Terminate`. With one channel, arrival order = push order, so the schedule is an input.
use std::sync::mpsc;
use std::time::Duration;

use renoir::operator::{ExchangeData, Operator, StreamElement as E};
use renoir::verif::{self, Net};
use renoir::BatchMode;

pub type Batch<T> = (usize, Vec<E<T>>);

pub const WATCHDOG: Duration = Duration::from_secs(15);

/// Stream generator shared by the Start-based properties.
pub mod gen {
    use super::*;
    use crate::rng::Rng;

    /// one sender's well-formed stream: `rounds` rounds of timestamped data and increasing
    /// watermarks, each closed by FAR, then Terminate
    pub fn sender_stream(rng: &mut Rng, rounds: usize, max_len: u64, id: i64) -> Vec<E<i64>> {
        let mut v = vec![];
        for _ in 0..rounds {
            // one round in four lies entirely before time 0 (timestamps are signed)
            let mut ts = if rng.chance(1, 4) { -30 - rng.below(40) as i64 } else { rng.below(4) as i64 };
            let len = if rng.chance(1, 5) { 0 } else { rng.below(max_len + 1) };
            for j in 0..len {
                match rng.below(5) {
                    0 | 1 => {
                        v.push(E::Watermark(ts));
                        ts += 1 + rng.below(3) as i64;
                    }
                    2 if rng.chance(1, 3) => v.push(E::Item(id * 1000 + j as i64)),
                    _ => {
                        ts += rng.below(3) as i64;
                        v.push(E::Timestamped(id * 1000 + j as i64, ts + 1));
                    }
                }
            }
            v.push(E::FlushAndRestart);
        }
        v.push(E::Terminate);
        v
    }

    /// cut a stream into batches the way `End`+`Batcher` do: a batch always ends right after
    /// a FAR, and Terminate travels alone
    pub fn batches(rng: &mut Rng, stream: &[E<i64>]) -> Vec<Vec<E<i64>>> {
        let max = *rng.pick(&[1u64, 2, 3, 1000]);
        let mut res = vec![];
        let mut cur = vec![];
        for e in stream {
            match e {
                E::Terminate => {
                    if !cur.is_empty() {
                        res.push(std::mem::take(&mut cur));
                    }
                    res.push(vec![E::Terminate]);
                }
                E::FlushAndRestart => {
                    cur.push(e.clone());
                    res.push(std::mem::take(&mut cur));
                }
                _ => {
                    cur.push(e.clone());
                    if cur.len() as u64 >= max || rng.chance(1, 6) {
                        res.push(std::mem::take(&mut cur));
                    }
                }
            }
        }
        if !cur.is_empty() {
            res.push(cur);
        }
        res
    }

    /// number of FARs in the batches of a sender that were already delivered
    fn fars(b: &[E<i64>]) -> usize {
        b.iter().filter(|e| matches!(e, E::FlushAndRestart)).count()
    }

    /// interleave the senders' batch lists, keeping each sender's order. `sync`: a sender
    /// may not deliver round k+1 before every sender delivered its FAR of round k.
    pub fn interleave(rng: &mut Rng, per_sender: Vec<Vec<Vec<E<i64>>>>, sync: bool) -> Vec<Batch<i64>> {
        let n = per_sender.len();
        let mut pos = vec![0usize; n];
        let mut done_fars = vec![0usize; n];
        let mut out = vec![];
        loop {
            let min_fars = *done_fars.iter().min().unwrap_or(&0);
            let cands: Vec<usize> = (0..n)
                .filter(|&s| pos[s] < per_sender[s].len())
                .filter(|&s| {
                    !sync || done_fars[s] == min_fars || matches!(per_sender[s][pos[s]][0], E::Terminate)
                })
                .collect();
            if cands.is_empty() {
                break;
            }
            // bias: sometimes keep draining the same sender
            let s = *rng.pick(&cands);
            let b = per_sender[s][pos[s]].clone();
            done_fars[s] += fars(&b);
            pos[s] += 1;
            out.push((s, b));
        }
        out
    }
}

/// Push `arrivals` into the single input channel of a set-up chain that begins with the
/// real `Start`, while a worker pulls `next()` until `Terminate`.
pub fn drive1<T, Op>(
    mut chain: Op,
    net: Net,
    senders: Vec<verif::NetSender<T>>,
    arrivals: Vec<Batch<T>>,
) -> Result<Vec<E<Op::Out>>, String>
where
    T: ExchangeData,
    Op: Operator + 'static,
    Op::Out: Send + 'static,
{
    let (tx, rx) = mpsc::channel::<E<Op::Out>>();
    let worker = std::thread::spawn(move || loop {
        let e = chain.next();
        let end = matches!(e, E::Terminate);
        if tx.send(e).is_err() || end {
            break;
        }
    });
    for (s, batch) in arrivals {
        senders[s].send(batch);
    }
    let mut out = vec![];
    let res = loop {
        match rx.recv_timeout(WATCHDOG) {
            Ok(e) => {
                let end = matches!(e, E::Terminate);
                out.push(e);
                if end {
                    break Ok(());
                }
            }
            Err(mpsc::RecvTimeoutError::Timeout) => break Err("hang: no Terminate within watchdog".to_string()),
            Err(mpsc::RecvTimeoutError::Disconnected) => break Err("worker panicked".to_string()),
        }
    };
    // disconnect the channel so that a blocked worker fails its recv and exits
    drop(senders);
    drop(net);
    drop(rx);
    let _ = worker.join();
    res.map(|_| out)
}

/// Run the real single-input `Start` with `n` upstream replicas on the given arrival order.
/// Returns everything `next()` returned up to and including `Terminate`, or an error when
/// it panicked or did not terminate within the watchdog time.
pub fn drive_single<T: ExchangeData>(n: u64, arrivals: Vec<Batch<T>>) -> Result<Vec<E<T>>, String> {
    // the upstream block id rotates over 0 (the job's first block: its first replica has the
    // default coordinate), 1 and 3
    static CALLS: std::sync::atomic::AtomicU64 = std::sync::atomic::AtomicU64::new(0);
    let prev = [0u64, 1, 3][(CALLS.fetch_add(1, std::sync::atomic::Ordering::Relaxed) % 3) as usize];
    let mut net = Net::new(5);
    let senders = net.add_prev::<T>(prev, n);
    let mut start = verif::start_single::<T>(prev);
    start.setup(&mut net.metadata(BatchMode::fixed(1024)));
    drive1(start, net, senders, arrivals)
}

/// Build `source.build(..)` with the public API where `build` crosses exactly one block
/// boundary (e.g. `.fold`, `.group_by(..).fold(..)`), take the real chain of the new block
/// (`Start -> ...`) and drive it with `n` hand-driven upstream replicas.
pub fn drive_after_start<T, Op, F>(n: u64, arrivals: Vec<Batch<T>>, build: F) -> Result<Vec<E<Op::Out>>, String>
where
    T: ExchangeData,
    Op: Operator + 'static,
    Op::Out: Send + 'static,
    F: FnOnce(renoir::Stream<crate::script::Script<T>>) -> renoir::Stream<Op>,
{
    let env = renoir::StreamContext::new(renoir::RuntimeConfig::local(1).unwrap());
    let src = env.stream(crate::script::Script::<T>::new(vec![]));
    let src_id = verif::block_id(&src);
    let stream = build(src);
    let dest = verif::block_id(&stream);
    assert_ne!(src_id, dest, "build must cross a block boundary");
    let mut chain = verif::into_chain(stream);
    let mut net = Net::new(dest);
    let senders = net.add_prev::<T>(src_id, n);
    chain.setup(&mut net.metadata(BatchMode::fixed(1024)));
    drive1(chain, net, senders, arrivals)
}

/// A delivery to one of the two inputs of a binary block.
#[derive(Clone, Debug)]
pub enum Del<L, R> {
    L(usize, Vec<E<L>>),
    R(usize, Vec<E<R>>),
}

/// Drive a set-up chain that starts with the real two-input `Start`. Deliveries are made
/// one at a time: the next batch is pushed only when both input channels are empty again,
/// so at most one batch is ever in flight and the arrival order is exactly the delivery
/// order (the generators only produce orders in which every batch is consumable).
pub fn drive2<L, R, Op>(
    chain: Op,
    net: Net,
    sl: Vec<verif::NetSender<L>>,
    sr: Vec<verif::NetSender<R>>,
    deliveries: Vec<Del<L, R>>,
) -> Result<Vec<E<Op::Out>>, String>
where
    L: ExchangeData,
    R: ExchangeData,
    Op: Operator + 'static,
    Op::Out: Send + 'static,
{
    drive2_paced(chain, net, sl, sr, deliveries, None)
}

/// As [`drive2`]; with `pause = Some(d)` the driver waits `d` before every delivery (and
/// before closing), so that a receiver with a timed wait (adaptive batching) times out in
/// every state it can be in.
pub fn drive2_paced<L, R, Op>(
    mut chain: Op,
    net: Net,
    sl: Vec<verif::NetSender<L>>,
    sr: Vec<verif::NetSender<R>>,
    deliveries: Vec<Del<L, R>>,
    pause: Option<std::time::Duration>,
) -> Result<Vec<E<Op::Out>>, String>
where
    L: ExchangeData,
    R: ExchangeData,
    Op: Operator + 'static,
    Op::Out: Send + 'static,
{
    let (tx, rx) = mpsc::channel::<E<Op::Out>>();
    let worker = std::thread::spawn(move || loop {
        let e = chain.next();
        let end = matches!(e, E::Terminate);
        if tx.send(e).is_err() || end {
            break;
        }
    });
    let mut out = vec![];
    let mut finished = false;
    let mut err: Option<String> = None;
    let pending = |sl: &Vec<verif::NetSender<L>>, sr: &Vec<verif::NetSender<R>>| {
        sl.first().map(|s| s.pending()).unwrap_or(0) + sr.first().map(|s| s.pending()).unwrap_or(0)
    };
    'outer: for d in deliveries {
        if let Some(p) = pause {
            std::thread::sleep(p);
        }
        match d {
            Del::L(s, b) => sl[s].send(b),
            Del::R(s, b) => sr[s].send(b),
        }
        let t0 = std::time::Instant::now();
        while pending(&sl, &sr) > 0 {
            // collect what the worker produced so far; stop early if it already terminated
            while let Ok(e) = rx.try_recv() {
                if matches!(e, E::Terminate) {
                    finished = true;
                }
                out.push(e);
            }
            if finished {
                break 'outer;
            }
            if t0.elapsed() > WATCHDOG {
                err = Some("hang: a delivered batch was never consumed".to_string());
                break 'outer;
            }
            std::thread::yield_now();
        }
    }
    if err.is_none() && !finished {
        loop {
            match rx.recv_timeout(WATCHDOG) {
                Ok(e) => {
                    let end = matches!(e, E::Terminate);
                    out.push(e);
                    if end {
                        break;
                    }
                }
                Err(mpsc::RecvTimeoutError::Timeout) => {
                    err = Some("hang: no Terminate within watchdog".to_string());
                    break;
                }
                Err(mpsc::RecvTimeoutError::Disconnected) => {
                    err = Some("worker panicked".to_string());
                    break;
                }
            }
        }
    }
    drop(sl);
    drop(sr);
    drop(net);
    drop(rx);
    let _ = worker.join();
    match err {
        None => Ok(out),
        Some(e) => Err(format!("{e}; output so far: {} elements", out.len())),
    }
}

/// The real two-input `Start` alone (with optional caching of one side).
pub fn drive_binary_start(
    nl: u64,
    nr: u64,
    left_cache: bool,
    right_cache: bool,
    deliveries: Vec<Del<i64, i64>>,
    adaptive_ms: Option<u64>,
) -> Result<Vec<E<verif::Bin<i64, i64>>>, String> {
    let mut net = Net::new(5);
    let sl = net.add_prev::<i64>(1, nl);
    let sr = net.add_prev::<i64>(2, nr);
    let mut start = verif::start_binary::<i64, i64>(1, 2, left_cache, right_cache);
    match adaptive_ms {
        // adaptive batching: the receiver waits with a timeout; every delivery comes later than that
        Some(ms) => {
            start.setup(&mut net.metadata(BatchMode::adaptive(1024, std::time::Duration::from_millis(ms))));
            drive2_paced(start, net, sl, sr, deliveries, Some(std::time::Duration::from_millis(4 * ms)))
        }
        None => {
            start.setup(&mut net.metadata(BatchMode::fixed(1024)));
            drive2(start, net, sl, sr, deliveries)
        }
    }
}

/// Build a two-input block with the public API from two (never executed) script sources,
/// take the real chain `Start::multiple -> ...` of the resulting block and drive it.
/// `build` returns the resulting stream and the ids of the two blocks feeding it.
pub fn drive_binary_chain<L, R, Op, F>(
    nl: u64,
    nr: u64,
    deliveries: Vec<Del<L, R>>,
    build: F,
) -> Result<Vec<E<Op::Out>>, String>
where
    L: ExchangeData,
    R: ExchangeData,
    Op: Operator + 'static,
    Op::Out: Send + 'static,
    F: FnOnce(
        renoir::Stream<crate::script::Script<L>>,
        renoir::Stream<crate::script::Script<R>>,
    ) -> (renoir::Stream<Op>, u64, u64),
{
    let env = renoir::StreamContext::new(renoir::RuntimeConfig::local(1).unwrap());
    let a = env.stream(crate::script::Script::<L>::new(vec![]));
    let b = env.stream(crate::script::Script::<R>::new(vec![]));
    let (stream, idl, idr) = build(a, b);
    let dest = verif::block_id(&stream);
    let mut chain = verif::into_chain(stream);
    let mut net = Net::new(dest);
    let sl = net.add_prev::<L>(idl, nl);
    let sr = net.add_prev::<R>(idr, nr);
    chain.setup(&mut net.metadata(BatchMode::fixed(1024)));
    drive2(chain, net, sl, sr, deliveries)
}

/// The real keyed interval-join block `Start::multiple -> merge -> Reorder -> IntervalJoin`,
/// fed with the (key, MergeElement) pairs its producers would send.
pub fn drive_interval(
    nl: u64,
    nr: u64,
    deliveries: Vec<Del<(i64, renoir::operator::VerifMergeElement<i64, i64>), (i64, renoir::operator::VerifMergeElement<i64, i64>)>>,
    lb: i64,
    ub: i64,
) -> Result<Vec<E<(i64, (i64, i64))>>, String> {
    type KV = (i64, i64);
    let env = renoir::StreamContext::new(renoir::RuntimeConfig::local(1).unwrap());
    let a = env.stream(crate::script::Script::<KV>::new(vec![]));
    let b = env.stream(crate::script::Script::<KV>::new(vec![]));
    let (idl, idr) = (verif::block_id(&a), verif::block_id(&b));
    let stream = a.to_keyed().interval_join(b.to_keyed(), lb, ub).0;
    let dest = verif::block_id(&stream);
    let mut chain = verif::into_chain(stream);
    let mut net = Net::new(dest);
    let sl = net.add_prev(idl, nl);
    let sr = net.add_prev(idr, nr);
    chain.setup(&mut net.metadata(BatchMode::fixed(1024)));
    drive2(chain, net, sl, sr, deliveries)
}

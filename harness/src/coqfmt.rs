//! Printing Rust values as Gallina terms (Z_scope is open in the generated files).
use renoir::operator::StreamElement;

pub trait ToCoq {
    fn coq(&self) -> String;
}

impl ToCoq for i64 {
    fn coq(&self) -> String {
        if *self < 0 {
            format!("({})", self)
        } else {
            format!("{}", self)
        }
    }
}
impl ToCoq for i32 {
    fn coq(&self) -> String {
        (*self as i64).coq()
    }
}
impl ToCoq for u64 {
    fn coq(&self) -> String {
        format!("{}", self)
    }
}
/// `usize` prints as a `nat` literal (only ever small numbers: sizes, indices)
impl ToCoq for usize {
    fn coq(&self) -> String {
        format!("{}%nat", self)
    }
}
impl ToCoq for bool {
    fn coq(&self) -> String {
        if *self { "true".into() } else { "false".into() }
    }
}
impl ToCoq for () {
    fn coq(&self) -> String {
        "tt".into()
    }
}
impl<T: ToCoq> ToCoq for Vec<T> {
    fn coq(&self) -> String {
        let v: Vec<String> = self.iter().map(|x| x.coq()).collect();
        format!("[{}]", v.join("; "))
    }
}
impl<T: ToCoq> ToCoq for Option<T> {
    fn coq(&self) -> String {
        match self {
            Some(x) => format!("(Some {})", x.coq()),
            None => "None".into(),
        }
    }
}
impl<A: ToCoq, B: ToCoq> ToCoq for (A, B) {
    fn coq(&self) -> String {
        format!("({}, {})", self.0.coq(), self.1.coq())
    }
}
impl<A: ToCoq, B: ToCoq, C: ToCoq> ToCoq for (A, B, C) {
    fn coq(&self) -> String {
        format!("({}, {}, {})", self.0.coq(), self.1.coq(), self.2.coq())
    }
}
impl<T: ToCoq> ToCoq for StreamElement<T> {
    fn coq(&self) -> String {
        match self {
            StreamElement::Item(v) => format!("Item {}", paren(v.coq())),
            StreamElement::Timestamped(v, t) => format!("Tst {} {}", paren(v.coq()), t.coq()),
            StreamElement::Watermark(t) => format!("Wm {}", t.coq()),
            StreamElement::FlushBatch => "FlushBatch".into(),
            StreamElement::Terminate => "Terminate".into(),
            StreamElement::FlushAndRestart => "FAR".into(),
        }
    }
}

pub fn paren(s: String) -> String {
    if s.starts_with('(') || s.starts_with('[') || !s.contains(' ') {
        s
    } else {
        format!("({})", s)
    }
}

/// A Coq record/constructor application: `(Ctor a b c)`
pub fn app(ctor: &str, args: &[String]) -> String {
    let a: Vec<String> = args.iter().map(|s| paren(s.clone())).collect();
    format!("({} {})", ctor, a.join(" "))
}
